"""C02 finding 1: completing a thin pack written by C git duplicates an object.

A sender (C git, `pack-objects --thin`, no --delta-base-offset) sends
    P = REF_DELTA on Q,  Q = REF_DELTA on X,  X outside the pack (thin).
The receiver happens to own Q already (a loose object the sender cannot know
about).  DeltaChainIterator._walk_ref_chains asks the object store for *every*
pending REF_DELTA base in sha order, so when sha(Q) < sha(X) it resolves Q as an
"external" base although Q is in the pack itself.  extend_pack then appends a
second, full copy of Q; the completed pack and its index hold Q twice.
C git refuses that pack (verify-pack: bad / index-pack: "REF_DELTA ... already
resolved (duplicate base ...)").
"""
import hashlib
import io
import os
import shutil
import subprocess
import sys
import tempfile

from dulwich.repo import Repo

ENV = dict(os.environ, HOME="/nonexistent", GIT_CONFIG_NOSYSTEM="1",
           GIT_CONFIG_GLOBAL="/dev/null", GIT_AUTHOR_NAME="a",
           GIT_AUTHOR_EMAIL="a@b", GIT_COMMITTER_NAME="a",
           GIT_COMMITTER_EMAIL="a@b", GIT_AUTHOR_DATE="1000000000 +0000",
           GIT_COMMITTER_DATE="1000000000 +0000")


def git(*a, inp=None, cwd=None, check=True):
    r = subprocess.run(["git", *a], env=ENV, input=inp, capture_output=True, cwd=cwd)
    if check and r.returncode != 0:
        raise RuntimeError((a, r.stderr))
    return r if not check else r.stdout


def blobid(d):
    return hashlib.sha1(b"blob %d\0" % len(d) + d).hexdigest()


os.makedirs((os.environ.get("CORPUS_TMP") or "/tmp"), exist_ok=True)
TMP = tempfile.mkdtemp(dir=(os.environ.get("CORPUS_TMP") or "/tmp"), prefix="finding1-")
status = 0
try:
    body = b"".join(b"line %d of the shared text\n" % i for i in range(400))
    v1 = body + b"".join(b"tail one %d\n" % (i * i) for i in range(600))  # X
    k = 0
    while True:  # Q: must sort before X
        v2 = body + b"".join(b"second %d tail %d\n" % (k, i ** 3) for i in range(300))
        if blobid(v2) < blobid(v1):
            break
        k += 1
    v3 = v2[:-200]  # P
    X, Q, P = blobid(v1), blobid(v2), blobid(v3)

    S = TMP + "/sender"
    git("init", "-q", S)
    for i, v in enumerate((v1, v2, v3)):
        with open(S + "/f.txt", "wb") as f:
            f.write(v)
        git("add", "-A", cwd=S)
        git("commit", "-q", "-m", "c%d" % i, cwd=S)
    c = git("rev-list", "--reverse", "HEAD", cwd=S).split()
    thin = git("pack-objects", "--thin", "--stdout", "--revs", "-q",
               inp=c[2] + b"\n^" + c[0] + b"\n", cwd=S)

    # receiver: has commit 0 (with X) in a pack and blob Q as a loose object
    R = TMP + "/recv"
    git("init", "-q", "--bare", R)
    first = git("pack-objects", "--stdout", "--revs", "-q", inp=c[0] + b"\n", cwd=S)
    git("index-pack", "--stdin", inp=first, cwd=R)
    with open(TMP + "/v2", "wb") as f:
        f.write(v2)
    git("hash-object", "-w", TMP + "/v2", cwd=R)

    # what C git makes of the same thin pack in the same situation
    R2 = TMP + "/recv-git"
    shutil.copytree(R, R2)
    out = git("index-pack", "--fix-thin", "--stdin", inp=thin, cwd=R2).split()[-1].decode()
    gv = git("verify-pack", "-v", R2 + "/objects/pack/pack-" + out + ".idx").decode()
    chain = {l.split()[0]: l.split()[6] for l in gv.splitlines() if len(l.split()) == 7}
    print("thin pack by C git: P=%s -> %s, Q=%s -> %s (X=%s)" % (P[:8], chain.get(P, "?")[:8], Q[:8], chain.get(Q, "?")[:8], X[:8]))
    if chain.get(P) != Q or chain.get(Q) != X:
        print("setup did not yield the chain P->Q->X; nothing demonstrated")
        sys.exit(0)
    gnames = [l.split()[0] for l in gv.splitlines() if len(l.split()) >= 5 and len(l.split()[0]) == 40]
    print("C git --fix-thin: %d objects, %d distinct" % (len(gnames), len(set(gnames))))

    r = Repo(R)
    p = r.object_store.add_thin_pack(io.BytesIO(thin).read, None)
    names = [e[0].hex() for e in p.index.iterentries()]
    base = p._basename
    print("dulwich add_thin_pack: %d index entries, %d distinct; pack header says %d"
          % (len(names), len(set(names)), len(p.data)))
    dups = sorted({n for n in names if names.count(n) > 1})
    r.close()
    v = git("verify-pack", base + ".idx", check=False)
    print("git verify-pack on dulwich's pack: rc=%d %s" % (v.returncode, (v.stdout + v.stderr).decode().strip()))
    ip = git("index-pack", "-o", TMP + "/again.idx", base + ".pack", check=False, cwd=R)
    print("git index-pack on dulwich's pack: rc=%d %s" % (ip.returncode, ip.stderr.decode().strip()))
    if dups or v.returncode != 0 or ip.returncode != 0:
        print("VIOLATION: object(s) %s stored twice in the completed pack; C git rejects it." % dups)
        print("Required: a completed thin pack holds each object once (in-pack bases are "
              "resolved from the pack, only missing bases are appended) and C git accepts it.")
        status = 1
    else:
        print("no violation")
finally:
    shutil.rmtree(TMP, ignore_errors=True)
sys.exit(status)
