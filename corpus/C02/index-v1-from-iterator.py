"""C02 finding 5: write_pack_index(version=1) fed an iterator writes an index without entries.

write_pack_index*/write_pack_index_v1 are declared to take `entries: Iterable[...]`,
and Pack.sorted_entries() -- the obvious source of entries -- returns an iterator.
write_pack_index_v2/_v3 copy the entries into a list first; write_pack_index_v1
walks `entries` twice (once for the fan-out table, once for the entries), so with
an iterator the second walk is empty: the file has a fan-out table that announces
N objects, no entry table at all, and a self-consistent trailer checksum.
dulwich reads garbage from it and C git rejects it.  Versions 2 and 3 written from
the very same call are fine.
"""
import os
import shutil
import subprocess
import sys
import tempfile

from dulwich.object_format import SHA1
from dulwich.objects import Blob
from dulwich.pack import Pack, load_pack_index, write_pack, write_pack_index

ENV = dict(os.environ, HOME="/nonexistent", GIT_CONFIG_NOSYSTEM="1",
           GIT_CONFIG_GLOBAL="/dev/null")
os.makedirs((os.environ.get("CORPUS_TMP") or "/tmp"), exist_ok=True)
TMP = tempfile.mkdtemp(dir=(os.environ.get("CORPUS_TMP") or "/tmp"), prefix="finding5-")
status = 0
try:
    objs = [Blob.from_string(b"blob number %d\n" % i) for i in range(10)]
    base = TMP + "/pack-src"
    write_pack(base, objs, object_format=SHA1)
    src = Pack(base, object_format=SHA1)
    want = [(n, o) for n, o, _ in src.index.iterentries()]
    checksum = src.get_stored_checksum()
    for ver in (1, 2, 3):
        out = TMP + "/v%d" % ver
        shutil.copy(base + ".pack", out + ".pack")
        with open(out + ".idx", "wb") as f:
            write_pack_index(f, src.sorted_entries(), checksum, version=ver)
        problems = []
        idx = load_pack_index(out + ".idx", SHA1)
        try:
            idx.check()
            print("v%d: %d bytes, len()=%d, own checksum ok" % (ver, os.path.getsize(out + ".idx"), len(idx)))
            try:
                got = [(bytes(n), o) for n, o, _ in idx.iterentries()]
            except Exception as e:  # noqa: BLE001
                got = None
                problems.append("iterentries raised %r" % (e,))
            if got is not None and got != want:
                problems.append("entries read back differ (%d of %d equal)"
                                % (sum(a == b for a, b in zip(got, want)), len(want)))
            miss = 0
            for n, o in want:
                try:
                    miss += idx.object_offset(n) != o
                except Exception:  # noqa: BLE001
                    miss += 1
            if miss:
                problems.append("%d of %d lookups fail or give a wrong offset" % (miss, len(want)))
        finally:
            idx.close()
        if ver != 3:  # C git has no v3 reader
            r = subprocess.run(["git", "verify-pack", out + ".idx"], env=ENV, capture_output=True)
            if r.returncode != 0:
                problems.append("git verify-pack: " + r.stderr.decode().strip().splitlines()[0])
        for pr in problems:
            print("   PROBLEM:", pr)
        if problems:
            status = 1
    src.close()
    if status:
        print("VIOLATION: the index written does not map the names to their offsets.")
        print("Required: every index version written from the same entries reads back as "
              "the same name->offset mapping and is accepted by C git.")
    else:
        print("no violation")
finally:
    shutil.rmtree(TMP, ignore_errors=True)
sys.exit(status)
