#!/usr/bin/env python
"""C02 finding 2: write_pack()/write_pack_objects()/write_pack_data() with SHA-256.

The entries that the pack writer returns (and that write_pack() puts in the .idx) are
keyed by ShaFile.sha().digest() / UnpackedObject.sha(), which is always the 20-byte SHA-1
name, even when object_format=SHA256. write_pack_index_v2 then takes the name width from
the first entry (20) while the trailer checksums are 32 bytes wide. The resulting .idx is
neither a SHA-1 nor a SHA-256 index: dulwich misparses it (names are a mix of bytes of
adjacent entries) and cannot find any object; C git rejects it ("wrong index v2 file size").
"""
import os, shutil, subprocess, sys, tempfile
from dulwich.object_format import SHA256
from dulwich.objects import Blob
from dulwich.pack import Pack, write_pack

ENV = dict(os.environ, HOME="/nonexistent", GIT_CONFIG_NOSYSTEM="1", GIT_CONFIG_GLOBAL="/dev/null")
tmp = tempfile.mkdtemp(prefix="c02f2-")
bad = 0
try:
    objs = []
    for data in (b"hello\n", b"hello2\n", b""):
        b = Blob.from_string(data)
        b.object_format = SHA256
        objs.append(b)
    want = {b.get_id(SHA256): (b.type_num, b.as_raw_string()) for b in objs}
    repo = os.path.join(tmp, "r")
    subprocess.run(["git", "init", "-q", "--object-format=sha256", "-b", "main", repo], env=ENV, check=True, stdin=subprocess.DEVNULL)
    for deltify in (False, True):
        base = os.path.join(tmp, f"p{int(deltify)}")
        write_pack(base, objs, SHA256, deltify=deltify)
        size = os.path.getsize(base + ".idx")
        expected = 8 + 1024 + len(objs) * (32 + 4 + 4) + 2 * 32
        print(f"deltify={deltify}: idx is {size} bytes, a SHA-256 v2 index of {len(objs)} objects is {expected}")
        p = Pack(base, object_format=SHA256)
        try:
            names = set(p)
            print("  names in index :", sorted(n[:16] for n in names))
            print("  names expected :", sorted(n[:16] for n in want))
            if names != set(want):
                bad += 1
            for oid, v in want.items():
                try:
                    if p.get_raw(oid) != v:
                        print("  wrong content for", oid[:16]); bad += 1
                except KeyError:
                    print("  random access: KeyError for", oid[:16]); bad += 1
        finally:
            p.close()
        r = subprocess.run(["git", "verify-pack", "-v", base + ".idx"], env=ENV, cwd=repo, capture_output=True, stdin=subprocess.DEVNULL)
        print("  git verify-pack exit", r.returncode, r.stderr.decode().strip().splitlines()[:1])
        if r.returncode:
            bad += 1
        # the pack itself is fine: C git indexes it and finds the SHA-256 names
        r = subprocess.run(["git", "index-pack", "-o", base + ".gitidx", base + ".pack"], env=ENV, cwd=repo, capture_output=True, stdin=subprocess.DEVNULL)
        print("  git index-pack on the .pack alone: exit", r.returncode)
    print("property requires: the pack+index dulwich writes reads back as the same name->content map and is accepted by C git")
finally:
    shutil.rmtree(tmp)
sys.exit(1 if bad else 0)
