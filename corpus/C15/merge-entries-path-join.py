#!/usr/bin/env python
"""C15 finding 3: _merge_entries builds different paths in Rust and Python.

Python (diff_tree._tree_entries) uses TreeEntry.in_path -> posixpath.join(path,
name); Rust (crates/diff-tree/src/lib.rs: tree_entries) concatenates
path + b"/" + name.  They disagree when the entry name starts with '/' (join
drops the parent path: b"/abs" vs b"dir//abs") or when the parent path ends in
'/' (b"d/n" vs b"d//n").  Such names are accepted by parse_tree / Tree.add, so
tree_changes()/walk_trees() on the very same pair of trees reports different
paths depending on whether the extension is importable.
"""
import json
import os
import subprocess
import sys

CHILD = r"""
import sys, json
if sys.argv[1] == "py":
    for m in ("dulwich._objects", "dulwich._pack", "dulwich._diff_tree"):
        sys.modules[m] = None
import dulwich.diff_tree as d
from dulwich.objects import Tree, Blob
from dulwich.object_store import MemoryObjectStore
impl = "rust" if type(d._merge_entries).__name__ == "builtin_function_or_method" else "python"
s = MemoryObjectStore()
b = Blob.from_string(b"x"); s.add_object(b)
raw = bytes.fromhex(b.id.decode())
sub = Tree.from_string(b"100644 /abs\0" + raw + b"100644 n\0" + raw)   # parsed from bytes
s.add_object(sub)
root = Tree(); root.add(b"dir", 0o40000, sub.id); s.add_object(root)
empty = Tree(); s.add_object(empty)
merged = [(a and a.path.decode(), c and c.path.decode()) for a, c in d._merge_entries(b"dir", sub, None)]
changes = [(c.type, c.new.path.decode()) for c in d.tree_changes(s, empty.id, root.id)]
print(json.dumps({"impl": impl, "merge_entries": merged, "tree_changes": changes}))
"""


def run(mode):
    out = subprocess.run([sys.executable, "-c", CHILD, mode], env=dict(os.environ),
                         capture_output=True, text=True)
    if out.returncode != 0:
        return {"impl": mode, "error": out.stderr.strip().splitlines()[-1:]}
    return json.loads(out.stdout.strip().splitlines()[-1])


def main():
    rs, py = run("rs"), run("py")
    print("with extensions   :", rs)
    print("without extensions:", py)
    if rs.get("impl") != "rust":
        print("Rust extension not importable here; nothing to compare.")
        return 0
    if rs != {**py, "impl": "rust"}:
        print("VIOLATION: _merge_entries / tree_changes give different paths for the "
              "same trees with and without the extension; C15 requires identical "
              "results for all pairs of trees.")
        return 1
    print("no difference")
    return 0


if __name__ == "__main__":
    sys.exit(main())
