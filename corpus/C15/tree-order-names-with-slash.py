#!/usr/bin/env python
"""C15 finding 1: tree ordering differs between Rust and pure-Python
sorted_tree_items when one name continues another one with '/' (or NUL).

The Rust comparator (crates/objects/src/lib.rs: cmp_with_suffix) compares the
common prefix and then exactly ONE further byte (the implicit '/' of a
directory, or an implicit NUL of a file).  The Python key (objects.key_entry)
compares the whole of name+b"/".  For a directory "foo" next to an entry
"foo/bar" Rust says "equal" (and keeps dict insertion order), Python says
"foo" < "foo/bar".  Such names are accepted by parse_tree()/Tree.from_string
and Tree.add, so a tree read from a repository, touched and written back gets
a different object id depending on whether the extension is importable.

The script runs the same repository-level operation twice in child processes:
once with the extensions, once with them blocked (ImportError).
"""
import json
import os
import subprocess
import sys

CHILD = r"""
import sys, json
if sys.argv[1] == "py":
    for m in ("dulwich._objects", "dulwich._pack", "dulwich._diff_tree"):
        sys.modules[m] = None          # import -> ImportError -> fallback
import dulwich.objects as o
from dulwich.objects import Tree, Blob
from dulwich.object_store import MemoryObjectStore
impl = "rust" if type(o.sorted_tree_items).__name__ == "builtin_function_or_method" else "python"
store = MemoryObjectStore()
blob = Blob.from_string(b"x"); store.add_object(blob)
raw = bytes.fromhex(blob.id.decode())
sub = Tree(); sub.add(b"f", 0o100644, blob.id); store.add_object(sub)
rawsub = bytes.fromhex(sub.id.decode())
# a tree object as it may sit in a repository: entry "foo/bar" then dir "foo"
payload = b"100644 foo/bar\0" + raw + b"40000 foo\0" + rawsub
t = Tree.from_string(payload)
t.add(b"zzz", 0o100644, blob.id)        # touch it -> re-serialised on .id
store.add_object(t)
print(json.dumps({"impl": impl, "order": [e.path.decode() for e in t.items()],
                  "id": t.id.decode()}))
"""


def run(mode):
    env = dict(os.environ)
    out = subprocess.run([sys.executable, "-c", CHILD, mode], env=env,
                         capture_output=True, text=True)
    if out.returncode != 0:
        return {"impl": mode, "error": out.stderr.strip().splitlines()[-1:]}
    return json.loads(out.stdout.strip().splitlines()[-1])


def main():
    rs = run("rs")
    py = run("py")
    print("with extensions   :", rs)
    print("without extensions:", py)
    if rs.get("impl") != "rust":
        print("Rust extension not importable here; nothing to compare.")
        return 0
    # function-level view of the same thing
    import dulwich.objects as o
    d = {b"foo/bar": (0o100644, b"1" * 40), b"foo": (0o40000, b"2" * 40)}
    print("sorted_tree_items rust  :", [e.path for e in o.sorted_tree_items(d, False)])
    print("sorted_tree_items python:", [e.path for e in o._sorted_tree_items_py(d, False)])
    if rs != {**py, "impl": "rust"}:
        print("VIOLATION: the same tree gets a different entry order / object id "
              "depending on whether the Rust extension is enabled; C15 requires "
              "identical results.")
        return 1
    print("no difference")
    return 0


if __name__ == "__main__":
    sys.exit(main())
