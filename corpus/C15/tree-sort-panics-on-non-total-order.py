import os
#!/usr/bin/env python
"""C15 finding 2: Rust sorted_tree_items panics (PanicException, a
BaseException) on entry dictionaries for which the pure-Python version simply
returns the sorted entries.

cmp_with_suffix in crates/objects/src/lib.rs looks at only one byte past the
common prefix, so with a directory "foo" and names "foo/<x>" it is not a total
order ("foo" == "foo/a", "foo" == "foo/b", but "foo/a" < "foo/b").  Rust's
slice::sort_by detects that on larger inputs and panics with "user-provided
comparison function does not correctly implement a total order".  Such names
reach the function through Tree.from_string()/parse_tree (names with '/' are
parsed without complaint) -> Tree.items()/iteritems()/serialisation.

Property: same return value or failure in both.  Here: success in Python,
failure (not even an Exception subclass) in Rust.
"""
import random
import sys

import dulwich.objects as o
from dulwich.objects import Tree


def outcome(fn, entries):
    try:
        return ("ok", [e[0] for e in fn(entries, False)])
    except BaseException as e:  # PanicException derives from BaseException
        return ("raised", type(e).__module__ + "." + type(e).__name__,
                str(e).splitlines()[0][:90])


def main():
    if o.sorted_tree_items is o._sorted_tree_items_py:
        print("Rust extension not importable here; nothing to compare.")
        return 0
    raw = bytes(range(20))
    for seed in range(200):
        rnd = random.Random(seed)
        names = [b"foo"]
        names += [b"foo/" + bytes([rnd.randrange(33, 120)]) for _ in range(60)]
        names += [b"fo" + bytes([rnd.randrange(33, 120)]) for _ in range(30)]
        names = list(dict.fromkeys(names))
        rnd.shuffle(names)
        payload = b"".join(
            (b"40000 " if n == b"foo" else b"100644 ") + n + b"\0" + raw
            for n in names)
        # goes through parse_tree, so this is a dictionary a repository can hold
        tree = Tree.from_string(payload)
        entries = dict(tree._entries)
        rs = outcome(o.sorted_tree_items, entries)
        py = outcome(o._sorted_tree_items_py, entries)
        if rs[0] != py[0]:
            print("seed", seed, "entries:", len(entries))
            print("rust  :", rs)
            print("python:", (py[0], "%d entries, first %r" % (len(py[1]), py[1][:3])))
            try:
                tree2 = Tree.from_string(payload)
                tree2.items()
                print("Tree.items() with the extension enabled: ok")
            except BaseException as e:
                print("Tree.items() with the extension enabled raised",
                      type(e).__name__, "(is Exception subclass: %s)"
                      % isinstance(e, Exception))
            print("VIOLATION: C15 requires the same value or failure in both; "
                  "the Rust version aborts with a panic where Python returns.")
            return 1
    print("no panic observed")
    return 0


if __name__ == "__main__":
    sys.exit(main())
