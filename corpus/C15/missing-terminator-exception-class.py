#!/usr/bin/env python
"""C15 finding 4: a tree payload with a missing terminator fails with a
different exception class (and at a different moment) with and without the
extension, and that is visible at repository level.

Rust parse_tree is eager and raises ObjectFormatException for a missing ' '
after the mode or a missing NUL after the name.  The pure-Python parse_tree is
a generator that raises a bare ValueError ("subsection not found", from
bytes.index) -- and only once it is consumed.  Tree._deserialize wraps the
*call* in "try: ... except ValueError: raise ObjectFormatException", which can
never fire for a generator: the dict comprehension that consumes it is outside
the try.  Consequences: Tree.from_string / ShaFile.from_raw_string / reading a
packed tree / object_store.add_thin_pack (what ReceivePackHandler._apply_pack
calls, catching ObjectFormatException but not ValueError) raise
ObjectFormatException with the extension and ValueError without it.
"""
import json
import os
import subprocess
import sys
import tempfile

CHILD = r"""
import sys, json, zlib, hashlib, struct, socket, io
if sys.argv[1] == "py":
    for m in ("dulwich._objects", "dulwich._pack", "dulwich._diff_tree"):
        sys.modules[m] = None
import dulwich.objects as o
from dulwich.errors import ObjectFormatException, ChecksumMismatch, ApplyDeltaError
from dulwich.objects import Tree
from dulwich.repo import Repo
impl = "rust" if type(o.parse_tree).__name__ == "builtin_function_or_method" else "python"
res = {"impl": impl}
def cls(f):
    try:
        f(); return "ok"
    except Exception as e:
        return type(e).__name__
# function level: payloads from the stated domain (missing terminators)
# (the Python twin is a generator: its failure comes when the result is consumed, which is what is compared)
res["parse_tree(no space) consumed"] = cls(lambda: list(o.parse_tree(b"100644", 20)))
res["parse_tree(no NUL) consumed"] = cls(lambda: list(o.parse_tree(b"100644 a", 20)))
res["Tree.from_string(no NUL)"] = cls(lambda: Tree.from_string(b"100644 a"))
# repository level: receive a pack that holds such a tree, as the
# receive-pack server does (same exception list as server._apply_pack)
server_catches = (IOError, OSError, ChecksumMismatch, ApplyDeltaError, AssertionError,
                  socket.error, zlib.error, ObjectFormatException)
payload = b"100644 a"
body = b"PACK" + struct.pack(">LL", 2, 1) + bytes([(2 << 4) | len(payload)]) + zlib.compress(payload)
pack = body + hashlib.sha1(body).digest()
repo = Repo.init(sys.argv[2])
src = io.BytesIO(pack)
try:
    repo.object_store.add_thin_pack(src.read, None)
    res["add_thin_pack"] = "ok"
except server_catches as e:
    res["add_thin_pack"] = "reported to client as unpack error (%s)" % type(e).__name__
except Exception as e:
    res["add_thin_pack"] = "ESCAPES the server's handler: " + type(e).__name__
repo.close()
print(json.dumps(res))
"""


def run(mode, tmp):
    path = os.path.join(tmp, mode)
    os.mkdir(path)
    env = dict(os.environ, HOME=tmp, GIT_CONFIG_NOSYSTEM="1", GIT_CONFIG_GLOBAL=os.devnull)
    out = subprocess.run([sys.executable, "-c", CHILD, mode, path], env=env,
                         capture_output=True, text=True)
    if out.returncode != 0:
        return {"impl": mode, "error": out.stderr.strip().splitlines()[-1:]}
    return json.loads(out.stdout.strip().splitlines()[-1])


def main():
    base = (os.environ.get("CORPUS_TMP") or "/tmp") if os.path.isdir((os.environ.get("CORPUS_TMP") or "/tmp")) else None
    with tempfile.TemporaryDirectory(dir=base) as tmp:
        rs, py = run("rs", tmp), run("py", tmp)
    keys = [k for k in rs if k != "impl"]
    for k in keys:
        mark = "" if rs.get(k) == py.get(k) else "   <-- differs"
        print("%-32s rust: %-55s python: %s%s" % (k, rs.get(k), py.get(k), mark))
    if rs.get("impl") != "rust":
        print(rs, py)
        print("Rust extension not importable here; nothing to compare.")
        return 0
    if rs != {**py, "impl": "rust"}:
        print("VIOLATION: the same corrupt tree is an ObjectFormatException with the "
              "extension and a ValueError without it (and the Python parse_tree does "
              "not fail at call time at all); C15 requires identical "
              "repository-level results.")
        return 1
    print("no difference")
    return 0


if __name__ == "__main__":
    sys.exit(main())
