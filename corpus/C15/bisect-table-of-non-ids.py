import os
#!/usr/bin/env python
"""C15 finding 5b: bisect_find_sha disagrees on tables whose ids are not 20 or 32 bytes long.

Python (pack.bisect_find_sha) just compares byte strings and returns None when
the probe is absent.  Rust (crates/pack/src/lib.rs) first raises ValueError
"Sha must be 20 (SHA1) or 32 (SHA256) bytes long" for any other probe length,
and TypeError "unpack_name returned non-sha object" when the table yields an id
of another length.  So e.g. a search for an abbreviated id, or b"", returns
None in one implementation and raises in the other.
"""
import sys
import types

import dulwich.pack as p


def load_python_pack():
    """The pure-Python definitions of dulwich.pack (text before the
    'from dulwich._pack import' override at the end of the module)."""
    src = open(p.__file__).read()
    cut = src.index("try:\n    from dulwich._pack import")
    mod = types.ModuleType("dulwich._pack_py_copy")
    mod.__file__ = p.__file__
    mod.__package__ = "dulwich"
    sys.modules[mod.__name__] = mod
    exec(compile(src[:cut], p.__file__, "exec"), mod.__dict__)
    return mod


def outcome(fn, *args):
    try:
        return ("returned", fn(*args))
    except Exception as e:
        return ("raised", type(e).__name__, str(e))


def main():
    if type(p.bisect_find_sha).__name__ != "builtin_function_or_method":
        print("Rust extension not importable here; nothing to compare.")
        return 0
    py = load_python_pack().bisect_find_sha
    rs = p.bisect_find_sha
    table = sorted(bytes([i]) * 20 for i in (1, 5, 9))
    cases = [
        ("20-byte probe present", (0, 2, bytes([5]) * 20, table.__getitem__)),
        ("20-byte probe absent", (0, 2, bytes([6]) * 20, table.__getitem__)),
        ("table of 4-byte ids, 20-byte probe",
         (0, 2, bytes([5]) * 20, [b"\x01" * 4, b"\x05" * 4, b"\x09" * 4].__getitem__)),
    ]
    bad = 0
    for label, args in cases:
        a, b = outcome(rs, *args), outcome(py, *args)
        same = a[:1] == b[:1] and (a[0] == "raised" or a == b)
        print("%-36s rust: %-70s python: %s%s" % (label, a, b, "" if same else "  <-- differs"))
        bad += not same
    if bad:
        print("VIOLATION: for these sorted id tables / probes one implementation returns "
              "None and the other raises; C15 requires the same value or failure in both.")
        return 1
    print("no difference")
    return 0


if __name__ == "__main__":
    sys.exit(main())
