import os
#!/usr/bin/env python
"""C15 finding 6: entry dictionaries whose mode does not fit in 32 unsigned
bits (or whose id is a bytearray) are sorted by one implementation and
rejected by the other.

Rust sorted_tree_items extracts every value as (u32, Vec<u8>): a mode >= 2**32
or < 0 is a TypeError, while a bytearray / list-of-ints id is silently accepted
and converted to bytes.  Python sorted_tree_items (name_order=True, the order
used by _merge_entries / tree_changes) accepts any int mode and insists on
bytes for the id.  Tree.add()/__setitem__ do not validate either, so
Tree.iteritems(name_order=True) (and so diff_tree._merge_entries) on such a
tree succeeds without the extension and raises with it (or the other way round).
"""
import sys

import dulwich.objects as o
from dulwich.objects import Tree


def outcome(fn, *args):
    try:
        return ("returned", [tuple(e) for e in fn(*args)])
    except Exception as e:
        return ("raised", type(e).__name__)


def main():
    if o.sorted_tree_items is o._sorted_tree_items_py:
        print("Rust extension not importable here; nothing to compare.")
        return 0
    sha = b"1" * 40
    cases = [
        ("mode 2**32|0100644, name order", ({b"a": (2**32 | 0o100644, sha)}, True)),
        ("mode -1, name order", ({b"a": (-1, sha)}, True)),
        ("bytearray id, tree order", ({b"a": (0o100644, bytearray(sha))}, False)),
    ]
    bad = 0
    for label, args in cases:
        a = outcome(o.sorted_tree_items, *args)
        b = outcome(o._sorted_tree_items_py, *args)
        same = a[0] == b[0] and (a[0] == "raised" or a == b)
        print("%-32s rust: %-60s python: %s%s" % (label, a, b, "" if same else "  <-- differs"))
        bad += not same
    # the same through the public Tree API (Tree.add does not validate)
    t = Tree()
    t.add(b"a", 2**32 | 0o100644, sha)
    print("Tree.iteritems(name_order=True) with the extension:",
          outcome(t.iteritems, True))
    if bad:
        print("VIOLATION: C15 requires, for all entry dictionaries, the same value or "
              "failure in both implementations.")
        return 1
    print("no difference")
    return 0


if __name__ == "__main__":
    sys.exit(main())
