#!/usr/bin/env python
"""C15 finding 1: apply_delta returns different values (chunk lists) in the
two implementations, and the difference is observable: Blob.splitlines() of a
deltified blob obtained from Pack.iterobjects() differs with and without the
Rust extensions.

The pure-Python apply_delta returns one chunk per delta operation; the Rust
apply_delta returns a single joined chunk.  PackInflater (Pack.iterobjects,
UnpackedObject.sha_file) hands these chunks to ShaFile.from_raw_chunks
unchanged, and Blob.splitlines() (used by patch/diff/annotate code) gives a
result that depends on how the content is chunked.  So the same pack file
yields different lines for the same blob depending only on whether
dulwich._pack is importable.

Exit status 1 = violation present, 0 = not present.
"""
import subprocess
import sys

CHILD = r'''
import sys
if sys.argv[1] == "pure":
    for m in ("dulwich._pack", "dulwich._objects", "dulwich._diff_tree"):
        sys.modules[m] = None          # import of these raises ImportError
from io import BytesIO
from hashlib import sha1
from dulwich.objects import Blob
from dulwich.object_format import DEFAULT_OBJECT_FORMAT as FMT
import os, tempfile, shutil
from dulwich.pack import write_pack_header, write_pack_object, apply_delta, PackData, Pack
import dulwich.pack as P

mode = "rust" if apply_delta.__module__ != "dulwich.pack" else "pure"
assert mode == sys.argv[1], (mode, sys.argv[1])

base = Blob.from_string(b"one\ntwo\nthree\n")
target_data = b"one\nTWO\nthree\n"
target = Blob.from_string(target_data)
# handwritten delta: copy "one\n", insert "TWO\n", copy "three\n"
delta = (bytes([len(base.data), len(target_data)])
         + bytes([0x90, 4])            # copy offset 0 size 4
         + bytes([4]) + b"TWO\n"       # insert 4 bytes
         + bytes([0x91, 8, 6]))        # copy offset 8 size 6
assert b"".join(apply_delta(base.data, delta)) == target_data

buf = BytesIO()
h = sha1()
def w(b):
    h.update(b); buf.write(b); return len(b)
write_pack_header(w, 2)
write_pack_object(w, 3, [base.data], FMT)                             # blob
write_pack_object(w, 7, (bytes.fromhex(base.id.decode()), [delta]), FMT)  # REF_DELTA
buf.write(h.digest())

print(repr(apply_delta(base.data, delta)))
d = tempfile.mkdtemp(prefix="c15-")
try:
    basename = os.path.join(d, "pack-x")
    with open(basename + ".pack", "wb") as f:
        f.write(buf.getvalue())
    with PackData(basename + ".pack", object_format=FMT) as pd:
        pd.create_index_v2(basename + ".idx")
    with Pack(basename, object_format=FMT) as pack:
        got = [o for o in pack.iterobjects() if o.id == target.id][0]
        assert got.data == target_data
        print(repr(got.splitlines()))
finally:
    shutil.rmtree(d)
'''


def run(mode):
    r = subprocess.run([sys.executable, "-c", CHILD, mode],
                       capture_output=True, text=True)
    if r.returncode != 0:
        print("child failed (%s):\n%s" % (mode, r.stderr))
        sys.exit(2)
    return r.stdout.strip().split("\n")


pure_ad, pure = run("pure")
rust_ad, rust = run("rust")
print("apply_delta(base, delta), pure-Python:", pure_ad)
print("apply_delta(base, delta), Rust       :", rust_ad)
print("blob content                       : b'one\\nTWO\\nthree\\n' (REF_DELTA in a pack, read with Pack.iterobjects())")
print("splitlines(), pure-Python fallbacks :", pure)
print("splitlines(), Rust extensions       :", rust)
print("required: identical results (enabling the extensions must not change a")
print("          repository-level result); the correct value is")
print("          [b'one\\n', b'TWO\\n', b'three\\n']")
if pure != rust:
    print("VIOLATION: result depends on whether dulwich._pack is loaded")
    sys.exit(1)
print("no difference")
sys.exit(0)
