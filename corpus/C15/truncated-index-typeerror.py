#!/usr/bin/env python
"""C15 finding 5: a pack index whose name table is cut short (partial copy,
crash while writing) is handled differently by the two bisect_find_sha
implementations, and the difference reaches the object store.

Pure Python: unpack_name() returns a short/empty byte string past the end of
the file, the comparison simply orders it, the probe is "not found", KeyError
is raised, Pack.__contains__ answers False and the store goes on to find the
object as a loose object.  Rust: bisect_find_sha insists that unpack_name()
returns 20 or 32 bytes and raises TypeError("unpack_name returned non-sha
object"), which nothing catches, so the same lookup in the same repository
blows up.  Enabling the extension changes a repository-level result.

Exit status 1 = violation present, 0 = not present.
"""
import subprocess
import sys

CHILD = r'''
import sys
if sys.argv[1] == "pure":
    sys.modules["dulwich._pack"] = None
import os, shutil, tempfile
from dulwich.objects import Blob
from dulwich.repo import Repo
from dulwich.pack import bisect_find_sha
mode = "rust" if bisect_find_sha.__module__ != "dulwich.pack" else "pure"
assert mode == sys.argv[1]

d = tempfile.mkdtemp(prefix="c15-")
try:
    r = Repo.init_bare(d)
    store = r.object_store
    blobs = [Blob.from_string(b"packed %d\n" % i) for i in range(600)]
    store.add_objects([(b, None) for b in blobs])
    (pack,) = store.packs
    idx_path = pack._idx_path
    packed_first_bytes = {bytes.fromhex(b.id.decode())[0] for b in blobs}
    # a loose object whose bucket is non-empty and lies in the upper half
    i = 0
    while True:
        loose = Blob.from_string(b"loose %d\n" % i)
        fb = bytes.fromhex(loose.id.decode())[0]
        if fb >= 0xc0 and fb in packed_first_bytes:
            break
        i += 1
    store.add_object(loose)
    r.close()
    # cut the index in the middle of the name table
    size = os.path.getsize(idx_path)
    with open(idx_path, "r+b") as f:
        f.truncate(8 + 1024 + 20 * 300 + 7)
    r = Repo(d)
    try:
        print("contains:", loose.id in r.object_store)
    except Exception as e:
        print("contains: raised %s: %s" % (type(e).__name__, e))
    try:
        print("read    :", r.object_store[loose.id].data)
    except Exception as e:
        print("read    : raised %s: %s" % (type(e).__name__, e))
    r.close()
finally:
    shutil.rmtree(d)
'''


def run(mode):
    r = subprocess.run([sys.executable, "-c", CHILD, mode],
                       capture_output=True, text=True)
    if r.returncode != 0:
        print("child failed (%s):\n%s" % (mode, r.stderr))
        sys.exit(2)
    return r.stdout.strip().split("\n")


pure = run("pure")
rust = run("rust")
print("repository: one pack whose .idx is truncated inside the name table,")
print("            plus one loose blob; looking up the loose blob by id")
for p, r in zip(pure, rust):
    print("  pure-Python: %-45s | Rust: %s" % (p, r))
print("required: enabling the extensions never changes a repository-level result")
if pure != rust:
    print("VIOLATION: lookup succeeds with the fallback and raises with the extension")
    sys.exit(1)
print("no difference")
sys.exit(0)
